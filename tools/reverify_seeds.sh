#!/bin/bash
# Re-confirms every /verif/seeded/<name> against the current /repo HEAD and the
# current checks, updating meta.json (annotations are preserved).
cd /verif
for d in seeded/*/; do
  name=$(basename $d)
  prop=${name%%-*}
  extra=""
  case $name in
    C13-3) export SEED_DEST=internal/marshal ;;
    C18-3) export SEED_TAGS=verif ;;
    *) unset SEED_DEST SEED_TAGS ;;
  esac
  tools/verify_seed.sh /verif/seeded/$name $prop $name 2>&1 | grep "suite_ok\|check \|NOT-APPLY\|COMPILE" | cut -c1-260
  unset SEED_DEST SEED_TAGS
done
