#!/bin/bash
# usage: tools/reverify_seeds.sh [parallelism] [name-glob]
# Re-confirms every /verif/seeded/<name> against the current /repo HEAD and the
# current checks, updating meta.json (annotations are preserved).  The demo's
# place (and build tags) are taken from the meta.json of the first confirmation.
cd /verif
P=${1:-4}; G=${2:-*}
one() {
  name=$1; prop=${name%%-*}
  dest=$(python3 -c "import json;m=json.load(open('/verif/seeded/$name/meta.json'));print(m.get('confirmed_by_coordinator',{}).get('demo_placed_in',''))" 2>/dev/null)
  tags=""; grep -q "verifhook" /verif/seeded/$name/*_test.go 2>/dev/null && tags=verif
  SEED_DEST=$dest SEED_TAGS=$tags /verif/tools/verify_seed.sh /verif/seeded/$name $prop $name 2>&1 | grep "suite_ok\|check \|NOT-APPLY\|COMPILE" | cut -c1-200
}
export -f one
ls -d seeded/$G/ | xargs -n1 basename | xargs -P $P -I{} bash -c 'one {}'
