#!/bin/bash
# usage: tools/recheck_seed.sh <seed>   : re-run only the owning check against a
# seed that was confirmed before (patch applies, suite passes, demo fails with
# it) and update check_result in its meta.json.
clean_scratch_build() { local suf; suf=$(echo "$1" | cksum | cut -d' ' -f1); rm -rf /verif/.cache/bin/*-$suf /verif/.cache/bin/*-$suf.* /verif/.cache/mod-$suf; }
export GOFLAGS=-mod=mod GOPROXY=off GOSUMDB=off GOTOOLCHAIN=local
n=$1; P=${n%%-*}; WT=/tmp/vre_$$
git -C /repo worktree add -q --detach $WT HEAD || exit 2
git -C $WT apply /verif/seeded/$n/patch.diff || { git -C /repo worktree remove --force $WT; echo "[$n] PATCH-DOES-NOT-APPLY"; exit 3; }
res=$(VERIF_REPO=$WT /verif/check $P 2>&1); rc=$?
keys=$(echo "$res" | grep '^violation key=' | sed 's/^violation key=\([^ ]*\).*/\1/' | paste -sd' ')
git -C /repo worktree remove --force $WT; clean_scratch_build $WT
case $rc in 1) v=caught;; 0) v=MISSED;; *) v="rc=$rc";; esac
echo "[$n] check $P: $v [$(echo $keys | cut -c1-150)]"
python3 - "$n" "$v" "$keys" <<'PY'
import json,sys
n,v,keys=sys.argv[1:]
f='/verif/seeded/%s/meta.json'%n
m=json.load(open(f))
m['check_result']={'verdict':v,'violation_keys':keys.split(), 'note':'re-run of the check only (the change itself was confirmed when it arrived)'}
json.dump(m,open(f,'w'),indent=1)
PY
