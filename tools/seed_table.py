#!/usr/bin/env python3
"""Prints the markdown table of /verif/seeded/*/meta.json for DESIGN.md 10.2."""
import json,glob,os
print("| seed | what it changes | needs | first verdict | now | caught by |")
print("|---|---|---|---|---|---|")
for d in sorted(glob.glob('/verif/seeded/*/'), key=lambda s:(s.split('/')[-2][:3], s)):
    name=os.path.basename(d.rstrip('/'))
    m=json.load(open(d+'meta.json'))
    def one(s,n):
        s=' '.join(str(s).split()).replace('|','/')
        return s if len(s)<=n else s[:n-1]+'…'
    def fv(x):
        if isinstance(x,dict): return ('**missed**' if x.get('verdict')=='MISSED' else x.get('verdict','?'))
        return x
    cr=m.get('check_result',{})
    keys=cr.get('violation_keys',[])
    other=m.get('check_result_other_property')
    now=cr.get('verdict','?')
    if other and now!='caught': now+=f" ({other['property']}: {other['verdict']})"
    ks=', '.join('`'+k+'`' for k in keys[:3])+(' …' if len(keys)>3 else '')
    if other and not keys: ks=f"{other['property']}: "+', '.join('`'+k+'`' for k in other['violation_keys'][:2])
    print(f"| {name} | {one(m.get('summary',''),170)} | {one(m.get('needs_to_manifest',''),120)} | {one(fv(m.get('first_verdict_of_registered_check','')),90)} | {now} | {ks} |")
