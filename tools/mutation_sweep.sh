#!/bin/bash
# usage: tools/mutation_sweep.sh [parallelism] [IDs...]: runs tools/run_mutations.sh for the given
# properties (default all 20) and stores the result lines in /verif/mutation_results/<ID>.txt
P=${1:-4}; shift
IDS=${@:-C01 C02 C03 C04 C05 C06 C07 C08 C09 C10 C11 C12 C13 C14 C15 C16 C17 C18 C19 C20}
mkdir -p /verif/mutation_results
printf '%s\n' $IDS | xargs -P $P -I{} bash -c '/verif/tools/run_mutations.sh {} > /verif/mutation_results/{}.txt 2>&1; echo "{} done: $(grep -c ": caught" /verif/mutation_results/{}.txt) caught, $(grep -vc ": caught" /verif/mutation_results/{}.txt) other"'
