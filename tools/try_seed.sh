#!/bin/bash
# usage: tools/try_seed.sh <seed-name> <PROP> [extra check args]  : run a check against a seeded change (no meta update)
clean_scratch_build() { local suf; suf=$(echo "$1" | cksum | cut -d' ' -f1); rm -rf /verif/.cache/bin/*-$suf /verif/.cache/bin/*-$suf.* /verif/.cache/mod-$suf; }
export GOFLAGS=-mod=mod GOPROXY=off GOSUMDB=off GOTOOLCHAIN=local
n=$1; P=$2; shift 2; WT=/tmp/vtry_$$
git -C /repo worktree add -q --detach $WT HEAD || exit 2
git -C $WT apply /verif/seeded/$n/patch.diff || { git -C /repo worktree remove --force $WT; exit 3; }
VERIF_REPO=$WT /verif/check $P "$@" 2>&1 | grep -E "^(VIOLATION|HELD|INCONCL|violation key|NOTE|  [a-z])" | cut -c1-${TRY_COLS:-400} | head -${TRY_LINES:-30}
git -C /repo worktree remove --force $WT; clean_scratch_build $WT
