#!/bin/bash
# usage: tools/verify_seed.sh <seed-dir (patch.diff, *_test.go, meta.json)> <PROP> <name>
# Confirms an independently produced breaking change in a scratch worktree:
#   1 patch applies to /repo HEAD and compiles;  2 the repo suite still passes with it;
#   3 the demonstration fails with it and passes without it;  4 runs the registered
# quick check of <PROP> against it.  Stores everything under /verif/seeded/<name>/.
clean_scratch_build() { # removes the binaries and module copy that ./check built for a scratch tree
  local suf; suf=$(echo "$1" | cksum | cut -d' ' -f1)
  rm -rf /verif/.cache/bin/*-$suf /verif/.cache/bin/*-$suf.* /verif/.cache/mod-$suf
}

SRC=$1; PROP=$2; NAME=$3
export GOFLAGS=-mod=mod GOPROXY=off GOSUMDB=off GOTOOLCHAIN=local
WT=/tmp/vseed_$$
OUT=/verif/seeded/$NAME
log() { echo "[$NAME] $*"; }
git -C /repo worktree add -q --detach $WT HEAD || exit 2
cleanup() { git -C /repo worktree remove --force $WT 2>/dev/null; clean_scratch_build $WT; }
trap cleanup EXIT
if ! git -C $WT apply $SRC/patch.diff 2>/tmp/vseed_err_$$; then log "PATCH-DOES-NOT-APPLY: $(head -2 /tmp/vseed_err_$$)"; rm -f /tmp/vseed_err_$$; exit 3; fi
rm -f /tmp/vseed_err_$$
(cd $WT && go build ./... ) || { log "DOES-NOT-COMPILE"; exit 3; }
suite=$(cd $WT && go test -vet=off -count=1 -timeout 600s ./... 2>&1 | grep -v '^ok\|no test files')
if [ -n "$suite" ]; then suite_ok=false; log "SUITE-FAILS-WITH-PATCH: $(echo "$suite" | head -3)"; else suite_ok=true; fi
# demonstration
demo=$(ls $SRC/*_test.go | head -1)
pkgclause=$(grep -m1 '^package ' $demo | awk '{print $2}')
case $pkgclause in
  xmpp_test|xmpp) dest=. ;;
  *) dest=$(echo $pkgclause | sed 's/_test$//') ;;
esac
base=${pkgclause%_test}
[ -d $WT/$dest ] || dest=$(cd $WT && grep -rlE "^package $base\$" --include=*.go . | grep -v _test.go | head -1 | xargs dirname)
[ -n "${SEED_DEST:-}" ] && dest=$SEED_DEST
TAGS=()
[ -n "${SEED_TAGS:-}" ] && TAGS=(-tags "$SEED_TAGS")
cp $demo $WT/$dest/zz_seed_demo_test.go
tests=$(grep -o '^func Test[A-Za-z0-9_]*' $demo | sed 's/func //' | paste -sd'|')
with=$(cd $WT && go test "${TAGS[@]}" -vet=off -count=1 -timeout 300s -run "^($tests)\$" ./$dest 2>&1 | tail -3 | tr '\n' ' ')
git -C $WT apply -R $SRC/patch.diff
without=$(cd $WT && go test "${TAGS[@]}" -vet=off -count=1 -timeout 300s -run "^($tests)\$" ./$dest 2>&1 | tail -3 | tr '\n' ' ')
rm -f $WT/$dest/zz_seed_demo_test.go
git -C $WT apply $SRC/patch.diff
demo_ok=false
if echo "$with" | grep -q 'FAIL' && echo "$without" | grep -q '^ok\|ok  '; then demo_ok=true; fi
log "suite_ok=$suite_ok demo_ok=$demo_ok"
log "  with: $(echo $with | cut -c1-160)"
log "  without: $(echo $without | cut -c1-160)"
# our check
res=$(VERIF_REPO=$WT /verif/check $PROP 2>&1); rc=$?
keys=$(echo "$res" | grep '^violation key=' | sed 's/^violation key=\([^ ]*\).*/\1/' | paste -sd' ')
case $rc in 1) verdict=caught;; 0) verdict=MISSED;; *) verdict="rc=$rc";; esac
log "check $PROP: $verdict [$keys]"
mkdir -p $OUT
if [ "$(readlink -f $SRC)" != "$(readlink -f $OUT)" ]; then
  cp $SRC/patch.diff $OUT/patch.diff
  cp $demo $OUT/$(basename $demo)
fi
python3 - "$SRC/meta.json" "$OUT/meta.json" "$PROP" "$suite_ok" "$demo_ok" "$with" "$without" "$verdict" "$keys" "$dest" "$tests" <<'PY'
import json,sys
src,out,prop,suite_ok,demo_ok,with_,without,verdict,keys,dest,tests=sys.argv[1:]
import os
m={}
if os.path.exists(out):
    try: m=json.load(open(out))   # keep the coordinator's annotations
    except Exception: m={}
try: m.update(json.load(open(src)))
except Exception: pass
m.update({"property":prop,
 "confirmed_by_coordinator":{"patch_applies_to":"/repo HEAD at confirmation time","suite_passes_with_patch":suite_ok=="true","demo_fails_with_patch_and_passes_without":demo_ok=="true",
   "demo_placed_in":dest,"demo_tests":tests,"demo_output_with_patch":with_[:400],"demo_output_without_patch":without[:400],
   "commands":["git worktree add --detach <wt> HEAD; git apply patch.diff; go build ./...; go test -vet=off -count=1 ./...","go test -run '^(%s)$' ./%s  (with patch, then after git apply -R)"%(tests,dest),"VERIF_REPO=<wt> /verif/check %s"%prop]},
 "check_result":{"verdict":verdict,"violation_keys":keys.split()}})
json.dump(m,open(out,'w'),indent=1)
PY
